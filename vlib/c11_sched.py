"""C11, scheduler half (plug-in for checks/c11.py): task schedulers (E1) and the step accounting of
the multi-task training loops train_smt / train_active_mt / train_uts (E2).

items(tier, seed) -> work items whose "name" starts with "sched-" / "mt-" and whose "kind" starts with
"sched" / "mt"; work(item, col) explores one of them against the real code.

Clause (1)  "Task schedulers only ever select valid task ids, strictly alternate selection and feedback, and
the discounted-UCB scheduler plays every arm in its initial rounds and afterwards an arm maximising
discounted mean reward plus exploration bonus": exhaustive DFS over feedback alphabets on the real selector
objects with an independent float64 reference (any maximiser accepted).
Clause (2)  "the per-task step totals of the multi-task schedulers sum to the steps actually executed
without exceeding the total budget": the real loops on counting task environments, real single-task
trainers in warm-up-only mode and a contract-faithful stub trainer.
"""

from __future__ import annotations

import contextlib
import functools
import io
import itertools
import math
import pickle
import types

import gymnasium as gym
import jax
import numpy as np

from vlib import senv

SIG = "C11|{}|{}"

# failure kinds (fixed vocabulary) ---------------------------------------------------------------
K_INVALID = "invalid-task-id"
K_DOUBLE_SELECT = "second-select-accepted"
K_FEEDBACK_NO_SELECT = "feedback-without-select-accepted"
K_ARM_NOT_PLAYED = "arm-not-played-in-initial-rounds"
K_NOT_MAX = "chosen-arm-not-a-maximiser"
K_RAISED = "in-protocol-call-raised"
K_OVERRUN = "budget-overrun"
K_SUM = "per-task-totals-sum!=steps-executed"
K_PER_TASK = "per-task-total!=environment-count"
K_RETURNED = "returned-counter!=steps-executed"
K_LIVELOCK = "scheduler-loops-without-progress"
K_STEP_AFTER_END = "stepped-after-episode-end"
K_PROTOCOL = "select/feedback-not-alternating"
K_CRASH = "scheduler-raised"
K_WARM = "parameter-update-before-warm-up"
FROM_TRAINER = "-from-trainer-counter"  # suffix: consequence of a wrong counter returned by train_st

RULE = RULE_SCHED = (
    "schedulers: DFS over all feedback sequences (alphabets in ASSUMPTIONS) of every registered selector, "
    "alternating select/feedback, with both out-of-protocol calls tried in every state on a copy; one "
    "evaluation = one oracle comparison (id validity, a rejected out-of-protocol call, initial coverage, "
    "maximiser test); non-trivial = a post-initial selection with >=2 arms whose reference scores are not "
    "all equal (so some arm would be wrong); distinct = distinct (selector, hyper-parameters, arms, "
    "counted reward history). multi-task loops: full product of budgets x episode lengths^tasks x "
    "scheduling interval x scheduler options x trainer; one evaluation = one accounting comparison; "
    "non-trivial = the run made >=2 trainer calls and stepped >=2 different tasks; distinct = distinct "
    "configuration tuple"
)

ASSUMPTIONS = [
    "schedulers: arms in {1,2,3} (thorough also 4), 3*arms+3 rounds, feedback alphabet {-1,0,2} for <=2 arms "
    "and {0,2} for 3 arms in the quick tier ({-1,0,2} for 3 arms, {0,2} for 4 arms in thorough); "
    "hyper-parameters (upper bound, gamma, zeta): 2 (quick; thorough with 3 arms) or 3 fixed settings, not a continuum",
    "the 250-step window of DUCB is far beyond the exhaustive depth bound; it is exercised only by one long "
    "deterministic non-stationary trace per UCB selector and gamma in {hp gamma, 1.0} (NOT exhaustive)",
    "the initial phase of the discounted-UCB schedulers is taken as 2*arms rounds (mapb.DUCB) and 3*arms "
    "rounds (DUCBGeneralized withholds the first reward of every arm for lack of a baseline); the property "
    "text does not fix the length, a shorter initial phase that still plays every arm is not reported",
    "intrinsic rewards of the registered selectors follow the train_active_mt docstring: 1-step Progress = "
    "r - previous r of the arm; Monotonic Progress = max(0, r - max previous r); Best Reward = r; "
    "Diversity = -r; first reward of an arm gives no intrinsic reward for any variant",
    "a rejected out-of-protocol call counts as 'strictly alternating' when it raises; whether the rejected "
    "call left the selector state untouched is only counted (outcome), not demanded",
    "multi-task loops: tasks are counting environments with fixed episode length per task (each episode "
    "ends by termination or truncation depending on the task index), budgets 5..11, lengths {1..4}^tasks, "
    "2-3 tasks, scheduling interval {1,2}; real single-task trainers (train_ddpg/train_td3/train_sac) run "
    "in warm-up-only mode with tiny networks, so nothing learns and returns depend only on the scripted rewards",
    "train_smt is only called with b1 >= 2 and b2 >= 1 (with b2 = 0 and a non-empty stage-2 pool smt_stage2 raises "
    "UnboundLocalError before any step is executed: a crash outside this property, not enumerated)",
    "a livelock is made observable by a shared step guard (2*budget+8 environment steps) and a trainer-call "
    "guard (budget+6 calls); hitting either is reported, never waited for",
    "train_uts picks tasks with jax.random.choice: the seed is a value alphabet (1-2 seeds), task draws are "
    "the implementation's own, not enumerated",
]

# =================================================================================================
# Part 1: schedulers
# =================================================================================================

GENERALIZED = ["1-step Progress", "Monotonic Progress", "Best Reward", "Diversity"]
SELECTORS = ["TaskSelector", "Round Robin"] + GENERALIZED + ["DUCB"]
UCB = set(GENERALIZED) | {"DUCB"}
HPS = [  # (upper_bound B, gamma, zeta)
    (2.0, 0.9, 0.5),
    (1.0, 0.95, 0.002),  # zeta/gamma defaults of train_active_mt
    (3.0, 0.8, 0.1),
]
WINDOW = 250


def _slug(s):
    return s.replace(" ", "").replace("-", "")


def sched_items(tier, seed):
    out = []
    hps = [HPS[seed % 3], HPS[(seed + 1) % 3]] if tier == "quick" else HPS
    arms_list = [1, 2, 3] if tier == "quick" else [1, 2, 3, 4]
    for name in SELECTORS:
        for hi, hp in enumerate(hps):
            if name not in UCB and hi > 0:
                continue  # hyper-parameters are ignored by these selectors
            for arms in arms_list:
                if tier != "quick" and arms == 3 and hi != seed % 3 and hi != (seed + 1) % 3:
                    continue  # 3 arms x 3 feedback values (531 441 sequences) for two of the three settings
                if tier == "quick":
                    alpha = [-1.0, 0.0, 2.0] if arms <= 2 else [0.0, 2.0]
                elif name in UCB:
                    alpha = [-1.0, 0.0, 2.0] if arms <= 3 else [0.0, 2.0]
                else:  # selectors documented to ignore the feedback value
                    alpha = [-1.0, 0.0, 2.0] if arms <= 2 else [0.0, 2.0]
                depth = 3 * arms + 3
                leaves = len(alpha) ** depth
                plen = 0
                while leaves / (len(alpha) ** plen) > 7000:
                    plen += 1
                base = dict(kind="sched-dfs", selector=name, hp=list(hp), arms=arms, alphabet=alpha, depth=depth)
                tag = f"sched-{_slug(name)}-a{arms}-B{hp[0]}g{hp[1]}z{hp[2]}"
                if plen == 0:
                    out.append(dict(base, name=tag, prefix=[], lo=0))
                else:
                    out.append(dict(base, name=tag + "-trunk", prefix=[], lo=0, depth=plen, full_depth=depth))
                    for pre in itertools.product(range(len(alpha)), repeat=plen):
                        out.append(dict(base, name=tag + "-p" + "".join(map(str, pre)), prefix=list(pre), lo=plen))
    for name in sorted(UCB):
        for hp in hps[:1] if tier == "quick" else hps:
            for g in (hp[1], 1.0):
                out.append(
                    dict(
                        kind="sched-long", name=f"sched-long-{_slug(name)}-B{hp[0]}g{g}z{hp[2]}",
                        selector=name, hp=[hp[0], g, hp[2]], arms=3, rounds=700 if tier == "quick" else 1500,
                    )
                )
        # more arms than half the 250-round window: the initial phase alone is longer than the window
        hp = hps[0]
        out.append(dict(kind="sched-long", name=f"sched-long-{_slug(name)}-126arms", selector=name, hp=list(hp), arms=126,
                        rounds=(2 if name == "DUCB" else 3) * 126 + (40 if tier == "quick" else 110)))
    return out


# -- adapters on the real objects ------------------------------------------------------------------


def make_selector(name, arms, hp):
    B, g, z = hp
    # task ids are deliberately not 0..n-1 (2, 5, 8, ...): a selector must return an element of its task set,
    # not an arm index
    tasks = 3 * np.arange(arms) + 2
    if name == "DUCB":
        from rl_blox.blox.mapb import DUCB

        return DUCB(n_arms=arms, upper_bound=B, gamma=g, zeta=z)
    if name == "TaskSelector":
        from rl_blox.blox.multitask import TaskSelector

        # the base class is a protocol skeleton that always answers 0: it is only explored for the
        # select / feedback alternation, with the identity task set
        return TaskSelector(np.arange(arms))
    from rl_blox.algorithm.active_mt import TASK_SELECTORS

    cls, kw = TASK_SELECTORS[name]
    hparams = {"upper_bound": B, "ducb_gamma": g, "zeta": z}  # exactly how train_active_mt builds them
    hparams.update(kw)
    return cls(tasks=tasks, **hparams)


def do_select(name, obj):
    if name == "DUCB":
        return obj.choose_arm()
    t = obj.select()
    pos = np.nonzero(np.asarray(obj.tasks) == t)[0]
    # the rest of the search works on arm positions; an id outside the task set maps to -1 (reported as invalid)
    return int(pos[0]) if len(pos) == 1 else -1


def do_feedback(name, obj, r):
    return obj.reward(r) if name == "DUCB" else obj.feedback(r)


def entry_of(name):
    if name == "DUCB":
        return "mapb.DUCB"
    if name == "TaskSelector":
        return "multitask.TaskSelector"
    if name == "Round Robin":
        return "multitask.RoundRobinSelector"
    return f"multitask.DUCBGeneralized[{name}]"


def clone(obj):
    return pickle.loads(pickle.dumps(obj, -1))


def fingerprint(obj):
    return pickle.dumps(obj, -1)


# -- independent reference ---------------------------------------------------------------------------


class Ref:
    """Counted (arm, reward) history of the bandit behind a selector + per-arm raw rewards."""

    __slots__ = ("name", "n", "counted", "raw", "plays")

    def __init__(self, name, n):
        self.name, self.n = name, n
        self.counted = []  # (arm, reward as the bandit is documented to see it)
        self.raw = {}  # arm -> raw rewards in order
        self.plays = []  # selected arms in order

    def copy(self):
        r = Ref(self.name, self.n)
        r.counted = list(self.counted)
        r.raw = {k: list(v) for k, v in self.raw.items()}
        r.plays = list(self.plays)
        return r

    def init_rounds(self):
        return 2 * self.n if self.name == "DUCB" else 3 * self.n

    def feed(self, arm, r):
        if self.name == "DUCB":
            self.counted.append((arm, r))
            return
        prev = self.raw.get(arm, [])
        if prev and self.name in UCB:  # the first reward of an arm only sets the baseline
            if self.name == "1-step Progress":
                ir = r - prev[-1]
            elif self.name == "Monotonic Progress":
                ir = max(0.0, r - max(prev))
            elif self.name == "Best Reward":
                ir = r
            elif self.name == "Diversity":
                ir = -r
            else:
                raise ValueError(self.name)
            self.counted.append((arm, ir))
        self.raw[arm] = prev + [r]


def ref_scores(counted, n, B, g, z, window=WINDOW, bonus=True, discount=True):
    """float64 `discounted mean + 2B*sqrt(zeta*ln n_tot / n_arm)` per arm over the last `window` counted rounds."""
    t = len(counted)
    lo = max(0, t - window) if window else 0
    N = [0.0] * n
    S = [0.0] * n
    for i in range(lo, t):
        a, r = counted[i]
        w = (g ** (t - 1 - i)) if discount else 1.0
        N[a] += w
        S[a] += w * r
    tot = math.fsum(N)
    out = []
    for a in range(n):
        if N[a] <= 0.0:
            out.append(math.inf)  # never (recently) played: unbounded exploration bonus
            continue
        s = S[a] / N[a]
        if bonus:
            s += 2.0 * B * math.sqrt(max(0.0, z * math.log(tot)) / N[a])
        out.append(s)
    return out


def is_max(scores, arm):
    m = max(scores)
    if m == math.inf:
        return scores[arm] == math.inf
    return scores[arm] >= m - 1e-9 * max(1.0, abs(m))


def distinguishing(scores):
    """True when at least one arm is NOT a maximiser (the test can fail)."""
    return any(not is_max(scores, a) for a in range(len(scores)))


# -- one selection with all its oracles ----------------------------------------------------------------


def check_selection(item, col, obj, ref, long_trace=False):
    """Performs select() on obj (in place) and runs the per-selection oracles. Returns the arm or None."""
    name, n, hp = item["selector"], item["arms"], item["hp"]
    entry = entry_of(name)
    rnd = len(ref.plays)
    hist = dict(plays=ref.plays, raw={str(k): v for k, v in ref.raw.items()}, counted=ref.counted[-12:])
    proto = name != "DUCB"  # the bare bandit has no protocol flag
    if proto and not long_trace:
        before = fingerprint(obj)
        c = pickle.loads(before)
        col.tick(1)
        try:
            c.feedback(0.0)
            col.violation(SIG.format(entry + ".feedback", K_FEEDBACK_NO_SELECT), dict(history=hist, hp=hp, arms=n))
        except Exception:  # noqa: BLE001  (loud rejection)
            col.outcome("sched_rejected_feedback_without_select")
            if fingerprint(c) != before:
                col.outcome("sched_rejected_feedback_changed_selector_state")
    try:
        arm = do_select(name, obj)
    except Exception as e:  # noqa: BLE001
        col.violation(SIG.format(entry + (".choose_arm" if name == "DUCB" else ".select"), K_RAISED), dict(history=hist, hp=hp, arms=n, error=repr(e)[:200]))
        return None
    col.tick(1)
    ok_id = isinstance(arm, (int, np.integer)) and not isinstance(arm, bool) and 0 <= int(arm) < n
    if not ok_id:
        col.violation(SIG.format(entry + (".choose_arm" if name == "DUCB" else ".select"), K_INVALID), dict(history=hist, hp=hp, arms=n, got=repr(arm)))
        return None
    arm = int(arm)
    if proto and not long_trace:
        before = fingerprint(obj)
        c = pickle.loads(before)
        col.tick(1)
        try:
            c.select()
            col.violation(SIG.format(entry + (".choose_arm" if name == "DUCB" else ".select"), K_DOUBLE_SELECT), dict(history=hist, hp=hp, arms=n))
        except Exception:  # noqa: BLE001
            col.outcome("sched_rejected_second_select")
            if fingerprint(c) != before:
                col.outcome("sched_rejected_select_changed_selector_state")
    ref.plays.append(arm)
    if name in UCB:
        R = ref.init_rounds()
        if rnd == R - 1:
            col.tick(1, ("cover", name, tuple(hp), n, tuple(ref.plays)) if n >= 2 else None)
            missing = sorted(set(range(n)) - set(ref.plays))
            if missing:
                col.violation(SIG.format(entry + (".choose_arm" if name == "DUCB" else ".select"), K_ARM_NOT_PLAYED), dict(history=hist, hp=hp, arms=n, never_played=missing, rounds=R))
            else:
                col.outcome("sched_initial_phase_covered_all_arms")
        if rnd >= R:
            B, g, z = hp
            sc = ref_scores(ref.counted, n, B, g, z)
            dist = n >= 2 and distinguishing(sc)
            col.tick(1, ("ucb", name, tuple(hp), n, tuple(ref.counted[-WINDOW:])) if dist else None)
            if not is_max(sc, arm):
                col.violation(
                    SIG.format(entry + (".choose_arm" if name == "DUCB" else ".select"), K_NOT_MAX),
                    dict(history=hist, hp=hp, arms=n, chosen=arm, reference_scores=sc, round=rnd),
                )
            if dist:
                col.outcome("sched_ucb_decisions_with_a_wrong_arm_available")
                if not is_max(ref_scores(ref.counted, n, B, g, z, bonus=False), arm):
                    col.outcome("sched_ucb_decisions_where_exploration_bonus_decides")
                if g != 1.0 and not is_max(ref_scores(ref.counted, n, B, g, z, discount=False), arm):
                    col.outcome("sched_ucb_decisions_where_discounting_decides")
                if len(ref.counted) > WINDOW and not is_max(ref_scores(ref.counted, n, B, g, z, window=0), arm):
                    col.outcome("sched_ucb_decisions_where_250_window_decides")
        else:
            col.outcome("sched_initial_phase_selections")
    if name == "Round Robin" and rnd >= n - 1 and len(set(ref.plays[-n:])) == n:
        col.outcome("sched_round_robin_last_n_selections_cover_all_tasks")
    return arm


def apply_feedback(item, col, obj, ref, arm, r):
    name = item["selector"]
    try:
        do_feedback(name, obj, r)
    except Exception as e:  # noqa: BLE001
        col.violation(SIG.format(entry_of(name) + (".reward" if name == "DUCB" else ".feedback"), K_RAISED), dict(plays=ref.plays, reward=r, error=repr(e)[:200]))
        return False
    ref.feed(arm, r)
    return True


def work_dfs(item, col):
    name, n, hp, alpha = item["selector"], item["arms"], item["hp"], item["alphabet"]
    depth, lo = item["depth"], item["lo"]
    null = _Null()
    obj = make_selector(name, n, hp)
    ref = Ref(name, n)
    # replay the prefix silently (its nodes are checked by the trunk item)
    for ri in item["prefix"]:
        arm = check_selection(item, null, obj, ref)
        if arm is None or not apply_feedback(item, null, obj, ref, arm, alpha[ri]):
            col.outcome("sched_prefix_not_reachable")
            return
    stats = dict(states=0, transitions=0, leaves=[])

    def rec(obj, ref, d, fb):
        stats["states"] += 1
        if d >= depth:
            stats["leaves"].append((tuple(fb), tuple(ref.plays)))
            return
        arm = check_selection(item, col, obj, ref)
        stats["transitions"] += 1
        if arm is None:
            return
        for ri, r in enumerate(alpha):
            o2 = clone(obj) if ri < len(alpha) - 1 else obj  # the last branch may consume the object
            r2 = ref.copy()
            stats["transitions"] += 1
            if apply_feedback(item, col, o2, r2, arm, r):
                rec(o2, r2, d + 1, fb + [ri])

    rec(obj, ref, lo, list(item["prefix"]))
    # fresh replay of every explored leaf without any copying (validates the clone shortcut; determinism)
    validated = 0
    for fb, plays in stats["leaves"]:
        o = make_selector(name, n, hp)
        got = []
        for ri in fb:
            got.append(int(do_select(name, o)))
            do_feedback(name, o, alpha[ri])
        if tuple(got) != plays[: len(got)]:
            raise RuntimeError(f"fresh replay of {fb} diverged from the explored branch: {got} vs {plays}")
        validated += 1
    col.graph(stats["states"], stats["transitions"], validated, depth)
    if stats["leaves"] and name in UCB and n == 3 and "full_depth" not in item:
        fb, plays = stats["leaves"][(2 * len(stats["leaves"])) // 3]
        col.sample(dict(selector=name, arms=n, hp=hp, feedback=[alpha[i] for i in fb], selections=list(plays)))


def long_reward(arm, t, n):
    phase = (t // 130) % n
    if arm == phase:
        return 2.0
    return -1.0 if (arm + t) % 3 == 0 else 0.0


def work_long(item, col):
    name, n, hp = item["selector"], item["arms"], item["hp"]
    obj = make_selector(name, n, hp)
    ref = Ref(name, n)
    it = dict(item)
    for t in range(item["rounds"]):
        arm = check_selection(it, col, obj, ref, long_trace=True)
        if arm is None:
            return
        if not apply_feedback(it, col, obj, ref, arm, long_reward(arm, t, n)):
            return
    col.outcome("sched_long_trace_rounds", item["rounds"])
    col.sample(dict(selector=name, arms=n, hp=hp, long_trace_rounds=item["rounds"], last_selections=[int(a) for a in ref.plays[-8:]] if hasattr(ref, "plays") else None))


class _Null:
    def __getattr__(self, name):
        return lambda *a, **k: None


# =================================================================================================
# Part 2: multi-task training loops
# =================================================================================================

BUDGETS = [5, 6, 7, 8, 9, 10, 11]
SMT_SPLITS_QUICK = [(3, 2), (4, 2), (5, 2), (4, 4), (5, 4), (6, 4), (7, 4)]  # b1 + b2 = 5..11
SMT_SPLITS_MORE = [(2, 3), (9, 1), (3, 4), (6, 2), (7, 2), (8, 3), (2, 9)]  # b2 >= 1 (see ASSUMPTIONS)
SMT_MODES = {
    # solved_threshold, unsolvable_threshold
    "main": (1e9, -1e9),  # never solved / never unsolvable: tasks cycle through the main pool
    "solved": (-1e9, -1e9),  # every task is solved after its first call: stage 1 stops early
    "unsolv": (1e9, 1e9),  # a task is unsolvable as soon as its budget is used up
    "mixed": (0.5, -0.5),  # decided by the scripted returns
}


class StepGuard:
    """Shared by the task environments of one run: total executed steps with a hard limit."""

    def __init__(self, limit):
        self.limit = limit
        self.total = 0


class TaskEnv(senv.ScriptEnv):
    """Counting task environment: in context `ctx` every episode lasts lengths[ctx] steps and ends with
    termination (kinds[ctx]=='T') or truncation ('U').  Per-context executed-step counts are the ground truth."""

    def __init__(self, lengths, kinds, guard, ctx=0):
        super().__init__("", discrete=False)
        self.lengths, self.kinds, self.guard, self.ctx = list(lengths), list(kinds), guard, ctx
        self.counts = [0] * len(lengths)
        self.ep_ends = [0] * len(lengths)
        self.violated = None

    def set_ctx(self, c):
        self.ctx = int(c)
        self.k = 0  # a new task starts a new episode count (every trainer call resets anyway)

    def step(self, a):
        if self.done:
            self.violated = "step-after-end"
            raise senv.StepAfterEnd("step() after episode end without reset()")
        if self.guard.total >= self.guard.limit:
            self.violated = "horizon"
            raise senv.HorizonExceeded(f"more than {self.guard.limit} environment steps")
        c = self.ctx
        self.guard.total += 1
        self.t += 1
        self.k += 1
        self.counts[c] += 1
        end = self.k >= self.lengths[c]
        term = end and self.kinds[c] == "T"
        trunc = end and self.kinds[c] == "U"
        self.done = end
        if end:
            self.ep_ends[c] += 1
        self.uid = self.t + self.ep
        r = float((self.counts[c] * 7 + 3 * c) % 5 - 2)
        return self._obs(), r, term, trunc, {}


class LivelockGuard(RuntimeError):
    pass


StubResult = None


def _stub_result():
    global StubResult
    if StubResult is None:
        import collections

        StubResult = collections.namedtuple("StubResult", ["replay_buffer", "global_step"])
    return StubResult


def stub_trainer(env, seed=1, total_timesteps=10, total_episodes=None, learning_starts=0, replay_buffer=None,
                 logger=None, global_step=0, progress_bar=True, bar=None, _defect=None):
    """Contract-faithful single-task trainer: steps env from global_step until the budget or the episode
    limit is reached; returns an object whose global_step is the start count plus the steps it executed.
    `_defect='break-before-increment'` reproduces the off-by-one of a trainer that leaves its loop on the
    episode limit before counting the step (used only by the oracle self-test)."""
    env.reset(seed=seed)
    step = global_step
    ep = 0
    while step < total_timesteps:
        _, _, term, trunc, _ = env.step(env.action_space.sample())
        if _defect != "break-before-increment":
            step += 1
        if term or trunc:
            ep += 1
            if total_episodes is not None and ep >= total_episodes:
                break
            env.reset()
        if _defect == "break-before-increment":
            step += 1
    return _stub_result()(replay_buffer, step)


_TRAINERS = {}


def real_trainer(name, env):
    """functools.partial of the real train_* with tiny networks (built once per worker and obs size)."""
    key = (name, int(env.observation_space.shape[0]))
    if key in _TRAINERS:
        return _TRAINERS[key]
    H = [3]
    if name == "ddpg":
        from rl_blox.algorithm.ddpg import create_ddpg_state, train_ddpg

        st = create_ddpg_state(env, policy_hidden_nodes=H, q_hidden_nodes=H, seed=0)
        f = functools.partial(train_ddpg, policy=st.policy, policy_optimizer=st.policy_optimizer, q=st.q, q_optimizer=st.q_optimizer, buffer_size=64)
    elif name == "td3":
        from rl_blox.algorithm.td3 import create_td3_state, train_td3

        st = create_td3_state(env, policy_hidden_nodes=H, q_hidden_nodes=H, seed=0)
        f = functools.partial(train_td3, policy=st.policy, policy_optimizer=st.policy_optimizer, q=st.q, q_optimizer=st.q_optimizer, buffer_size=64)
    elif name == "sac":
        from rl_blox.algorithm.sac import create_sac_state, train_sac

        st = create_sac_state(env, policy_hidden_nodes=H, q_hidden_nodes=H, seed=0)
        f = functools.partial(train_sac, policy=st.policy, policy_optimizer=st.policy_optimizer, q=st.q, q_optimizer=st.q_optimizer, buffer_size=64)
    else:
        raise ValueError(name)
    _TRAINERS[key] = f
    return f


TRAINER_LABEL = {"stub": "stub", "badstub": "stub", "ddpg": "train_ddpg", "td3": "train_td3", "sac": "train_sac"}


class TrainerProbe:
    """Wraps train_st: counts calls (livelock guard), records per call the start counter, the steps the
    environments executed during the call and the counter the trainer returned."""

    def __init__(self, fn, guard, max_calls):
        self.fn, self.guard, self.max_calls = fn, guard, max_calls
        self.calls = []  # dict(start, total, episodes, executed, returned)

    def __call__(self, *a, **kw):
        if len(self.calls) >= self.max_calls:
            raise LivelockGuard(f"more than {self.max_calls} trainer calls")
        before = self.guard.total
        rec = dict(start=kw.get("global_step"), total=kw.get("total_timesteps"), episodes=kw.get("total_episodes"), executed=None, returned=None)
        self.calls.append(rec)
        res = self.fn(*a, **kw)
        rec["executed"] = self.guard.total - before
        rec["returned"] = getattr(res, "global_step", None)
        if rec["returned"] is not None:
            rec["returned"] = int(rec["returned"])
        return res

    def wrong_counter_calls(self):
        return [c for c in self.calls if c["returned"] is not None and c["executed"] is not None and c["returned"] != c["start"] + c["executed"]]


def build_tasks(container, lengths, kinds, guard):
    """Returns (task_set, envs, counts()) for a gym VectorEnv of separate environments ('vec') or a
    DiscreteTaskSet over one context-switched environment ('set' / 'setctx' = context-aware observations)."""
    n = len(lengths)
    if container == "vec":
        envs = [TaskEnv(lengths, kinds, guard, ctx=i) for i in range(n)]
        for i, e in enumerate(envs):
            e.done = True
        ts = gym.vector.SyncVectorEnv([(lambda e=e: e) for e in envs])
        return ts, envs, lambda: [envs[i].counts[i] for i in range(n)], lambda: [sum(e.counts) - e.counts[i] for i, e in enumerate(envs)]
    from rl_blox.blox.multitask import DiscreteTaskSet

    base = TaskEnv(lengths, kinds, guard, ctx=0)
    ts = DiscreteTaskSet(base, lambda env, context: env.set_ctx(context[0]), np.arange(n, dtype=np.float32)[:, None], context_aware=(container == "setctx"))
    return ts, [base], lambda: list(base.counts), lambda: [0]


def mt_items(tier, seed):
    out = []
    quick = tier == "quick"

    def add(algo, trainer, n_tasks, container, **opt):
        name = f"mt-{algo}-{trainer}-n{n_tasks}-{container}-" + "-".join(f"{k}{v}" for k, v in sorted(opt.items()))
        out.append(dict(kind="mt-" + algo, name=name.replace(" ", ""), algo=algo, trainer=trainer, n_tasks=n_tasks, container=container, seed=seed, **opt))

    # --- train_uts ------------------------------------------------------------------------------
    for trainer in ["stub", "td3", "sac", "badstub"]:
        for n_tasks in [2, 3]:
            conts = ["vec"] if (quick and (trainer != "stub" or n_tasks == 3)) else ["vec", "set"] if quick else ["vec", "set", "setctx"]
            if trainer == "badstub":
                conts = ["vec"]
            for container in conts:
                for si in [1, 2]:
                    if trainer in ("td3", "sac") and n_tasks == 3 and quick:
                        add("uts", trainer, n_tasks, container, si=si, sub=1)  # lengths with <= 2 distinct values
                    else:
                        add("uts", trainer, n_tasks, container, si=si)
    # --- train_active_mt ------------------------------------------------------------------------
    sels = ["Round Robin", "Monotonic Progress"] if quick else ["Round Robin"] + GENERALIZED
    for trainer in ["stub", "ddpg", "td3", "sac"]:
        for n_tasks in [2, 3]:
            for sel in sels:
                conts = ["vec"] if quick else ["vec", "setctx"]
                if quick and trainer == "stub" and n_tasks == 2:
                    conts = ["vec", "setctx"]
                for container in conts:
                    for si in [1, 2]:
                        if trainer != "stub" and quick and (n_tasks == 3 or trainer != "ddpg"):
                            add("amt", trainer, n_tasks, container, si=si, sel=sel, sub=1)
                        else:
                            add("amt", trainer, n_tasks, container, si=si, sel=sel)
    # --- train_smt ------------------------------------------------------------------------------
    for trainer in ["stub", "ddpg", "td3", "sac"]:
        for n_tasks in [2, 3]:
            for K in [1, 2]:
                for mode in SMT_MODES:
                    for kappa in [0.8, 0.25]:
                        if trainer != "stub":
                            if quick and not (trainer == "ddpg" and kappa == 0.8 and mode in ("main", "mixed")):
                                continue
                            if not quick and kappa != 0.8 and mode not in ("main", "unsolv"):
                                continue
                        conts = ["vec"] if (quick or trainer != "stub") else ["vec", "set"]
                        for container in conts:
                            for si in [1, 2]:
                                if trainer != "stub" and (quick or n_tasks == 3):
                                    add("smt", trainer, n_tasks, container, si=si, K=K, mode=mode, kappa=kappa, sub=1)
                                else:
                                    add("smt", trainer, n_tasks, container, si=si, K=K, mode=mode, kappa=kappa)
    # --- one deep path: scheduling intervals of more than 100 episodes (episode-statistics windows default to 100) --------
    for algo, kw in (("smt", dict(K=1, mode="main", kappa=0.8)), ("amt", dict(sel="Round Robin")), ("uts", {})):
        out.append(dict(kind="mt-" + algo, name=f"mt-{algo}-stub-long-interval", algo=algo, trainer="stub", n_tasks=2, container="vec", seed=seed, si=101,
                        lengths=[[1, 1], [1, 2]], budgets=[(230, 60)] if algo == "smt" else [290], **kw))
    # --- finite warm-up across several scheduling intervals (real backbones) ----------------------
    for algo in ["uts", "amt", "smt"]:
        for trainer in (["td3"] if quick else ["ddpg", "td3", "sac"]):
            for si in [1, 2]:
                out.append(dict(kind="mt-" + algo, name=f"mt-{algo}-{trainer}-warm-si{si}", algo=algo, trainer=trainer, si=si, seed=seed,
                                lengths=[[1, 2], [2, 2], [2, 3], [3, 3]] if quick else [[1, 1], [1, 2], [2, 2], [2, 3], [3, 3], [1, 2, 3], [2, 2, 2]],
                                warms=[4, 5, 6, 7, 8] if quick else [3, 4, 5, 6, 7, 8, 9]))
    return out


def length_tuples(n_tasks, sub):
    allt = list(itertools.product([1, 2, 3, 4], repeat=n_tasks))
    if sub:
        allt = [t for t in allt if len(set(t)) <= 2 and (n_tasks == 2 or t[0] <= t[-1])]
    return allt


def run_one(item, col, lengths, budget_cfg):
    """One call of the multi-task routine; all oracles of clause (2)."""
    algo, trainer, n_tasks, container, si = item["algo"], item["trainer"], item["n_tasks"], item["container"], item["si"]
    seed = item["seed"]
    kinds = ["T" if (i + seed) % 2 else "U" for i in range(n_tasks)]
    if algo == "smt":
        b1, b2 = budget_cfg
        budget = b1 + b2
    else:
        budget = budget_cfg
    guard = StepGuard(2 * budget + 8)
    task_set, envs, counts, stray = build_tasks(container, lengths, kinds, guard)
    if trainer == "stub":
        fn = stub_trainer
    elif trainer == "badstub":
        fn = functools.partial(stub_trainer, _defect="break-before-increment")
    else:
        env0 = task_set.envs[0] if container == "vec" else task_set.get_task(0)
        fn = real_trainer(trainer, env0)
    probe = TrainerProbe(fn, guard, budget + 6)
    entry = {"uts": "train_uts", "amt": "train_active_mt", "smt": "train_smt"}[algo] + f"({TRAINER_LABEL[trainer]})"
    cfg = dict(lengths=list(lengths), ends=kinds, budget=budget_cfg, scheduling_interval=si, container=container,
               **{k: item[k] for k in ("sel", "K", "mode", "kappa") if k in item})
    selftest = trainer == "badstub"
    rec_log = []
    result = totals = None
    err = None
    sink = io.StringIO()
    try:
        with contextlib.redirect_stdout(sink):
            if algo == "uts":
                cfg["uts_seed"] = 1 + seed
                result = _call_uts(task_set, probe, budget, si, 1 + seed)
            elif algo == "amt":
                result, totals = _call_amt(task_set, probe, budget, si, item["sel"], n_tasks, seed, rec_log)
            else:
                result, totals = _call_smt(task_set, probe, budget_cfg, si, item, n_tasks, seed)
    except senv.HorizonExceeded:
        err = "horizon"
    except LivelockGuard:
        err = "calls"
    except senv.StepAfterEnd:
        err = "step-after-end"
    except Exception as e:  # noqa: BLE001
        err = "crash:" + repr(e)[:300]
    per_task = counts()
    executed = guard.total
    wrong = probe.wrong_counter_calls()
    suffix = FROM_TRAINER if (wrong and algo == "uts") else ""  # only train_uts relies on the returned counter
    detail = dict(config=cfg, executed_per_task=per_task, executed_total=executed, trainer_calls=probe.calls[:14])
    if wrong:
        detail["trainer_calls_with_wrong_returned_counter"] = wrong[:3]
        if not selftest:
            col.outcome("mt_runs_where_train_st_returned_a_wrong_counter")
    if selftest:
        # oracle self-test: a deliberately defective trainer must show up as an overrun; nothing is reported
        col.tick(1)
        if executed > budget:
            col.outcome("mt_selftest_defective_stub_overrun_detected")
        elif wrong:
            col.outcome("mt_selftest_defective_stub_wrong_counter_without_overrun")
        else:
            col.outcome("mt_selftest_defective_stub_defect_not_triggered")
        return
    ntcalls = len(probe.calls)
    stepped = sum(1 for c in per_task if c > 0)
    key = (algo, trainer, container, tuple(lengths), repr(budget_cfg), si, item.get("sel"), item.get("K"), item.get("mode"), item.get("kappa")) if (ntcalls >= 2 and stepped >= 2) else None

    def viol(kind, extra=None):
        d = dict(detail)
        if extra:
            d.update(extra)
        col.violation(SIG.format(entry, kind), d)

    # (d) scheduler protocol inside train_active_mt (checked first: a violated protocol makes the selector raise)
    if algo == "amt" and rec_log:
        col.tick(1, key)
        kinds_seq = [e[0] for e in rec_log]
        if not all(k == ("select" if i % 2 == 0 else "feedback") for i, k in enumerate(kinds_seq)):
            viol(K_PROTOCOL, dict(calls=rec_log[:20], error=err))
            return
        col.tick(1)
        if any(e[0] == "select" and e[1] is not None and not (0 <= e[1] < n_tasks) for e in rec_log):
            viol(K_INVALID, dict(calls=rec_log[:20]))
            return
        col.outcome("mt_amt_selector_calls_observed", len(rec_log))
    # (a) no crash, no step after an episode end without reset
    col.tick(1, key)
    if err == "step-after-end":
        viol(K_STEP_AFTER_END)
        return
    if err is not None and err.startswith("crash"):
        viol(K_CRASH, dict(error=err))
        return
    # (b) terminates within the budget.  A guard that tripped with more than `budget` steps executed is an
    #     overrun; the call guard with executed <= budget means the loop spins without executing steps.
    col.tick(1, key)
    overrun = executed > budget
    if overrun:
        viol(K_OVERRUN + suffix, dict(stopped_by_guard=err))
    elif err in ("calls", "horizon"):
        viol(K_LIVELOCK + suffix, dict(stopped_by_guard=err))
    if err is not None:
        col.outcome("mt_runs_stopped_by_a_guard")
        return
    if any(stray()):
        raise RuntimeError("harness: a task environment was stepped in a foreign context")
    # (c) totals (when the run already overran because train_st returned a wrong counter, the wrong final
    #     counter of train_uts is the same defect and is not reported a second time)
    if totals is not None:
        totals = [int(x) for x in np.asarray(totals).tolist()]
        col.tick(1, key)
        if sum(totals) != executed:
            viol(K_SUM, dict(training_steps=totals))
        col.tick(1, key)
        if totals != per_task:
            viol(K_PER_TASK, dict(training_steps=totals))
    elif result is not None and hasattr(result, "global_step"):
        col.tick(1, key)
        if int(result.global_step) != executed and not (overrun and suffix):
            viol(K_RETURNED + suffix, dict(returned_global_step=int(result.global_step)))
    # outcomes: what kind of run this was
    if key is not None:
        col.outcome("mt_runs_nontrivial")
    if executed == budget:
        col.outcome("mt_runs_budget_used_completely")
    elif executed < budget:
        col.outcome("mt_runs_stopped_below_budget")
    cut = [c for c in probe.calls if c["executed"] is not None and c["start"] is not None and c["start"] + c["executed"] >= c["total"]]
    if cut:
        col.outcome("mt_runs_last_call_cut_by_budget")
    if algo == "smt":
        b1, b2 = budget_cfg
        if any(c["total"] == b1 + b2 for c in probe.calls) and b2 > 0:
            col.outcome("mt_smt_runs_entering_stage_2")
        else:
            col.outcome("mt_smt_runs_without_stage_2")
    if len(col.samples) < 6 and key is not None and ntcalls >= 3:
        col.sample(dict(entry=entry, config=cfg, executed_per_task=per_task, training_steps=totals, calls=[(c["start"], c["executed"], c["returned"]) for c in probe.calls]))


def _call_uts(task_set, train_st, budget, si, seed, warm=10**6):
    from rl_blox.algorithm.uniform_task_sampling import train_uts

    return train_uts(task_set, train_st, total_timesteps=budget, episodes_per_task=si, seed=seed, exploring_starts=warm, progress_bar=False)


def _mt_buffer(n_tasks):
    from rl_blox.blox.replay_buffer import MultiTaskReplayBuffer, ReplayBuffer

    return MultiTaskReplayBuffer(ReplayBuffer(buffer_size=64), n_tasks)


def _call_amt(task_set, train_st, budget, si, sel, n_tasks, seed, rec_log, warm=10**6):
    from rl_blox.algorithm import active_mt

    cls, kw = active_mt.TASK_SELECTORS[sel]

    def _select(self):
        rec_log.append(["select", None])  # the attempt is logged even when the selector rejects it
        out = cls.select(self)
        rec_log[-1][1] = int(out)
        return out

    def _feedback(self, reward):
        rec_log.append(["feedback", float(reward)])
        return cls.feedback(self, reward)

    Rec = type("Recording" + cls.__name__, (cls,), {"select": _select, "feedback": _feedback})
    old = active_mt.TASK_SELECTORS[sel]
    active_mt.TASK_SELECTORS[sel] = (Rec, kw)  # the string path of train_active_mt builds the selector itself
    try:
        res = active_mt.train_active_mt(
            task_set, train_st, _mt_buffer(n_tasks), r_max=4.0, ducb_gamma=0.9, xi=0.3, task_selector=sel,
            total_timesteps=budget, scheduling_interval=si, learning_starts=warm, seed=seed, progress_bar=False,
        )
    finally:
        active_mt.TASK_SELECTORS[sel] = old
    return res[0], res[1]


def _call_smt(task_set, train_st, split, si, item, n_tasks, seed, warm=10**6):
    import warnings

    from rl_blox.algorithm.smt import train_smt

    solved, unsolv = SMT_MODES[item["mode"]]
    with warnings.catch_warnings():
        warnings.simplefilter("ignore")
        res = train_smt(
            task_set, train_st, _mt_buffer(n_tasks), b1=split[0], b2=split[1], solved_threshold=solved,
            unsolvable_threshold=unsolv, scheduling_interval=si, kappa=item["kappa"], K=item["K"], n_average=2,
            learning_starts=warm, seed=seed, progress_bar=False,
        )
    return res[0], res[1]


def _param_bytes(fn):
    from flax import nnx

    out = []
    for k in sorted(fn.keywords):
        v = fn.keywords[k]
        if isinstance(v, nnx.Module):
            out.append(b"".join(np.asarray(x).tobytes() for x in jax.tree_util.tree_leaves(nnx.state(v, nnx.Param))))
    return b"|".join(out)


def work_mt_warm(item, col):
    """Finite warm-up spanning several scheduling intervals, real backbone: a trainer call that ends before the warm-up
    threshold (every one of its steps s has s + 1 < warm-up) must leave the learned parameters bit-identical."""
    algo, trainer, si, seed = item["algo"], item["trainer"], item["si"], item["seed"]
    entry = {"uts": "train_uts", "amt": "train_active_mt", "smt": "train_smt"}[algo] + f"({TRAINER_LABEL[trainer]})"
    for lengths, warm in itertools.product(item["lengths"], item["warms"]):
        n_tasks = len(lengths)
        kinds = ["T" if (i + seed) % 2 else "U" for i in range(n_tasks)]
        budget = 10
        guard = StepGuard(2 * budget + 8)
        task_set, envs, counts, stray = build_tasks("vec", lengths, kinds, guard)
        fn = real_trainer(trainer, task_set.envs[0])
        calls = []

        def probe(*a, _fn=fn, _calls=calls, **kw):
            jax.effects_barrier()
            before = _param_bytes(_fn)
            res = _fn(*a, **kw)
            jax.effects_barrier()
            _calls.append(dict(start=int(kw.get("global_step", 0)), returned=int(res.global_step), learning_starts=int(kw.get("learning_starts", -1)),
                               changed=_param_bytes(_fn) != before))
            return res

        cfg = dict(lengths=list(lengths), ends=kinds, budget=budget, scheduling_interval=si, warm_up=warm)
        err = None
        try:
            with contextlib.redirect_stdout(io.StringIO()):
                if algo == "uts":
                    _call_uts(task_set, probe, budget, si, 1 + seed, warm=warm)
                elif algo == "amt":
                    _call_amt(task_set, probe, budget, si, "Round Robin", n_tasks, seed, [], warm=warm)
                else:
                    _call_smt(task_set, probe, (6, 4), si, dict(mode="main", kappa=0.8, K=1), n_tasks, seed, warm=warm)
        except Exception as e:  # noqa: BLE001 - budget / episode discipline is decided by the other mt items
            err = repr(e)[:200]
        inside = [c for c in calls if c["returned"] <= warm - 1]
        col.tick(len(calls), (algo, trainer, tuple(lengths), warm, si) if len(inside) >= 2 else None)
        if err is not None:
            col.outcome("mt_warm_runs_aborted")
            continue
        col.outcome("mt_warm_calls_entirely_inside_warm_up", len(inside))
        if any(c["changed"] for c in calls if c["returned"] > warm):
            col.outcome("mt_warm_runs_where_a_later_call_did_learn")
        bad = [c for c in inside if c["changed"]]
        if bad:
            col.violation(SIG.format(entry, K_WARM), dict(config=cfg, trainer_calls=calls[:12], first_early_update_call=bad[0]))
    col.sample(dict(entry=entry, kind="finite warm-up across scheduling intervals", lengths=item["lengths"], warm_ups=item["warms"]))


def work_mt(item, col):
    if item.get("warms"):
        return work_mt_warm(item, col)
    if item.get("budgets"):
        for lengths in item["lengths"]:
            for b in item["budgets"]:
                run_one(item, col, tuple(lengths), tuple(b) if isinstance(b, (list, tuple)) else b)
        return
    quick_splits = SMT_SPLITS_QUICK
    if item["algo"] == "smt":
        budgets = quick_splits + (SMT_SPLITS_MORE if item.get("more") else [])
    else:
        budgets = BUDGETS
    for lengths in length_tuples(item["n_tasks"], item.get("sub")):
        for b in budgets:
            run_one(item, col, lengths, b)


# =================================================================================================


def items(tier, seed):
    out = sched_items(tier, seed) + mt_items(tier, seed)
    if tier != "quick":
        for it in out:
            if it["kind"] == "mt-smt":
                it["more"] = 1
    return out


def work(item, col):
    kind = item["kind"]
    if kind == "sched-dfs":
        return work_dfs(item, col)
    if kind == "sched-long":
        return work_long(item, col)
    if kind.startswith("mt-"):
        return work_mt(item, col)
    raise ValueError(kind)
