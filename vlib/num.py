"""Numeric comparison policy (DESIGN 2.5)."""

import numpy as np

EPS32 = float(np.finfo(np.float32).eps)


def close(a, b, rtol=1e-5):
    """float32 result a vs float64 reference b: |a-b| <= rtol*max(1,|b|) elementwise."""
    a = np.asarray(a, dtype=np.float64)
    b = np.asarray(b, dtype=np.float64)
    if a.shape != b.shape:
        return False
    if not (np.all(np.isfinite(a) == np.isfinite(b))):
        return False
    m = np.isfinite(b)
    if not np.array_equal(a[~m], b[~m], equal_nan=True):
        return False
    return bool(np.all(np.abs(a[m] - b[m]) <= rtol * np.maximum(1.0, np.abs(b[m]))))


def ieee_equal(a, b):
    """Exact elementwise == (0.0 == -0.0), same shape; NaN never equal."""
    a = np.asarray(a)
    b = np.asarray(b)
    return a.shape == b.shape and bool(np.all(a == b))


def ulps32(x):
    return float(np.spacing(np.float32(abs(x))))


def tree_close(ta, tb, rtol=2e-4, atol=1e-6):
    import jax

    la = [np.asarray(x, dtype=np.float64) for x in jax.tree_util.tree_leaves(ta)]
    lb = [np.asarray(x, dtype=np.float64) for x in jax.tree_util.tree_leaves(tb)]
    if len(la) != len(lb):
        return False
    return all(x.shape == y.shape and np.allclose(x, y, rtol=rtol, atol=atol) for x, y in zip(la, lb))
